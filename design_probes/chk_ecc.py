import ast, sys, time
from fractions import Fraction as F
import os; sys.path.insert(0, os.path.dirname(os.path.abspath(__file__)))
from hansen import hansen, smul, sinv
NMAX=24
class P:
    def __init__(s,c): s.c=c  # list len NMAX+1
def const(x): return [F(x)]+[F(0)]*NMAX
def ev(node,env):
    if isinstance(node,ast.Constant):
        v=node.value
        return const(F(str(v)) if isinstance(v,float) else F(v))
    if isinstance(node,ast.Name): return env[node.id]
    if isinstance(node,ast.UnaryOp):
        v=ev(node.operand,env)
        return [-x for x in v] if isinstance(node.op,ast.USub) else v
    if isinstance(node,ast.BinOp):
        if isinstance(node.op,ast.Pow):
            b=ev(node.left,env); n=node.right
            assert isinstance(n,ast.Constant) and isinstance(n.value,int)
            r=const(1)
            for _ in range(n.value): r=smul(r,b,NMAX)
            return r
        a=ev(node.left,env); b=ev(node.right,env)
        if isinstance(node.op,ast.Add): return [x+y for x,y in zip(a,b)]
        if isinstance(node.op,ast.Sub): return [x-y for x,y in zip(a,b)]
        if isinstance(node.op,ast.Mult): return smul(a,b,NMAX)
        if isinstance(node.op,ast.Div): return smul(a,sinv(b,NMAX),NMAX)
    raise NotImplementedError(ast.dump(node))
def tables(path):
    tree=ast.parse(open(path).read())
    for fn in tree.body:
        if isinstance(fn,ast.FunctionDef) and fn.name.startswith('eccentricity_funcs_trunc'):
            N=int(fn.name.replace('eccentricity_funcs_trunc',''))
            env={'eccentricity':[F(0),F(1)]+[F(0)]*(NMAX-1)}
            res={}
            for st in fn.body:
                if isinstance(st,ast.Assign):
                    t=st.targets[0]
                    if isinstance(t,ast.Name):
                        if isinstance(st.value,ast.Dict):
                            for k,v in zip(st.value.keys,st.value.values):
                                p=ast.literal_eval(k)
                                for k2,v2 in zip(v.keys,v.values):
                                    q=ast.literal_eval(k2)
                                    res[(p,q)]=(ev(v2,env), ast.unparse(v2))
                        else:
                            env[t.id]=ev(st.value,env)
                    elif isinstance(t,ast.Subscript):
                        # alias r[p][q] = r[p2][q2]
                        p=ast.literal_eval(t.value.slice); q=ast.literal_eval(t.slice)
                        p2=ast.literal_eval(st.value.value.slice); q2=ast.literal_eval(st.value.slice)
                        res[(p,q)]=res[(p2,q2)]
            yield N,res
l=int(sys.argv[1])
cache={}
t0=time.time()
worst=0; bad=[]
for N,res in tables(f'/repo/TidalPy/tides/eccentricity_funcs/orderl{l}.py'):
    qs=range(-N//2-2, N//2+3)
    nent=0
    for p in range(l+1):
        for q in qs:
            key=(p,q)
            if key not in cache:
                G=hansen(-(l+1), l-2*p, l-2*p+q, NMAX); cache[key]=smul(G,G,NMAX)
            spec=cache[key]
            closed = key in res and '(' in res[key][1] and 'e2 - 1' in res[key][1]
            if key in res:
                nent+=1
                got=res[key][0]
                rng = range(NMAX+1) if closed else range(N+1)
                for d in rng:
                    s=spec[d]; g=got[d]
                    if s==0:
                        if g!=0: bad.append((l,N,p,q,d,'nonzero-where-spec-zero',float(g)))
                    else:
                        rel=abs((g-s)/s)
                        worst=max(worst,rel)
                        if rel>1e-13: bad.append((l,N,p,q,d,float(g),float(s),float(rel)))
                if not closed:
                    for d in range(N+1,NMAX+1):
                        if got[d]!=0: bad.append((l,N,p,q,d,'beyond-trunc',float(got[d])))
            else:
                if any(spec[d]!=0 for d in range(N+1)): bad.append((l,N,p,q,'MISSING',[str(x) for x in spec[:N+1] if x!=0]))
    print('l',l,'N',N,'entries',nent,'worst rel',worst,'bad so far',len(bad),'t',round(time.time()-t0,1),flush=True)
for b in bad[:60]: print(b)
