import sympy as sp
r,rho,g,G,l,w = sp.symbols('r rho g G l w', positive=True)
mu,K = sp.symbols('mu K')
Y = sp.symbols('y1:7'); Z = sp.symbols('z1:7')
def rhs(y, dynamic):
    y1,y2,y3,y4,y5,y6 = y
    lam = K - sp.Rational(2,3)*mu
    llp1=l*(l+1); lp1=l+1; lm1=l-1
    gt = 4*sp.pi*G*rho
    dyn = -w*w*rho*r if dynamic else 0
    y13 = 2*y1-llp1*y3
    dy1 = (1/(lam+2*mu))*(y13*(-lam)/r + y2)
    dy2 = (1/r)*(y1*(dyn-2*rho*g) + y2*(-2) + y4*llp1 + y5*rho*lp1 + y6*(-rho*r) + dy1*2*lam + y13*(2*(lam+mu)/r - rho*g))
    dy3 = -y1/r + y3/r + y4/mu
    dy4 = (1/r)*(y1*(rho*g+2*mu/r) + y3*(dyn-2*mu/r) + y4*(-3) + y5*(-rho) + dy1*(-lam) + y13*(-(lam+2*mu))/r)
    dy5 = y1*gt - y5*lp1/r + y6
    dy6 = (1/r)*(y1*gt*lm1 + y6*lm1 + y13*gt)
    return [dy1,dy2,dy3,dy4,dy5,dy6]
for dynamic in (False, True):
    dY = rhs(Y,dynamic); dZ = rhs(Z,dynamic)
    llp1=l*(l+1)
    W = r**2*(Y[0]*Z[1]-Y[1]*Z[0] + llp1*(Y[2]*Z[3]-Y[3]*Z[2])) + r**2/(4*sp.pi*G)*(Y[4]*Z[5]-Y[5]*Z[4])
    dW = sp.diff(W,r) + sum(sp.diff(W,Y[k])*dY[k] + sp.diff(W,Z[k])*dZ[k] for k in range(6))
    print('dynamic',dynamic, sp.simplify(dW))
