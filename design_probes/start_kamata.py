import sympy as sp
r,rho,G,l,w = sp.symbols('r rho G l w', positive=True)
mu = sp.symbols('mu')
z = sp.Function('z')(r)
gamma = 4*sp.pi*G*rho/3
g = gamma*r     # uniform sphere gravity
dyn = w*w
beta2 = mu/rho
k2 = dyn/beta2
lp1=l+1; lm1=l-1; llp1=l*lp1; dlp1=2*l+1
f_neg = -dyn/gamma; h_neg = f_neg - lp1
ri=1/r; r2i=ri*ri
S = {}
# pos_index=0, neg_index=1, third=2  (solid dynamic incompressible, KMN15 B17-B28 as coded)
S[0] = [0, llp1*(-rho*gamma + 2*mu*z*r2i), z*ri, mu*(dyn/beta2 - 2*r2i*z), lp1*(l*gamma-dyn), None]
S[1] = [0, rho*((dyn/gamma)*(dyn+4*gamma) - llp1*gamma), 0, 0, (h_neg-3)*dyn - h_neg*l*gamma, None]
S[2] = [l*ri, 2*mu*l*lm1*r2i, ri, 2*mu*lm1*r2i, l*gamma-dyn, None]
S[0][5] = dlp1*S[0][4]*ri; S[1][5]=dlp1*S[1][4]*ri; S[2][5]=dlp1*S[2][4]*ri - 3*l*gamma*ri
def rhs(y):
    y1,y2,y3,y4,y5,y6=y
    dt = -w*w*rho*r; gt = 4*sp.pi*G*rho; dg = rho*g; two = 2*mu*ri
    y13 = 2*y1-llp1*y3
    dy1 = y13*-1*ri
    dy2 = ri*(y1*(dt+12*mu*ri-4*dg) + y3*llp1*(dg-6*mu*ri) + y4*llp1 + y5*rho*lp1 + y6*-rho*r)
    dy3 = -y1*ri + y3*ri + y4/mu
    dy4 = ri*(y1*(dg-3*two) + y2*-1 + y3*(dt+two*(2*llp1-1)) + y4*-3 + y5*-rho)
    dy5 = y1*gt - y5*lp1*ri + y6
    dy6 = ri*(y1*gt*lm1 + y6*lm1 + y13*gt)
    return [dy1,dy2,dy3,dy4,dy5,dy6]
zr = sp.symbols('zr')
for s in (0,1,2):
    y=S[s]; R=rhs(y)
    res=[]
    for i in range(6):
        d = sp.diff(y[i], r)
        # Riccati: r z' = k2 r^2 + z^2 - (2l+1) z
        d = d.subs(sp.Derivative(z,r), (k2*r**2 + z**2 - dlp1*z)/r)
        res.append(sp.simplify((d-R[i]).subs(z,zr)))
    print('solution',s,res)
print('---- span test')
zr = sp.symbols('zr')
Smat = sp.Matrix([[sp.sympify(S[s][i]).subs(z,zr) for s in range(3)] for i in range(6)])
for s in (0,1,2):
    y=S[s]; R=rhs(y)
    res=[]
    for i in range(6):
        d = sp.diff(y[i], r).subs(sp.Derivative(z,r), (k2*r**2 + z**2 - dlp1*z)/r)
        res.append(sp.simplify((d-R[i]).subs(z,zr)))
    resv=sp.Matrix(res)
    # solve Smat * m = resv using rows 0,2,4 then verify all rows
    rows=[0,2,4]
    M3=Smat.extract(rows,[0,1,2]); b=resv.extract(rows,[0])
    m=M3.LUsolve(b)
    chk=sp.simplify(Smat*m-resv)
    print('solution',s,'coeffs',[sp.simplify(x) for x in m],'residual after recombination',list(chk))
