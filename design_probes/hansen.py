from fractions import Fraction as F
from math import comb, factorial
import sys, ast, re
# truncated power series in e as list of Fractions length N+1
def smul(a,b,N):
    r=[F(0)]*(N+1)
    for i,x in enumerate(a):
        if x==0: continue
        for j,y in enumerate(b):
            if i+j>N: break
            if y: r[i+j]+=x*y
    return r
def sadd(a,b): return [x+y for x,y in zip(a,b)]
def sscale(a,c): return [x*c for x in a]
def spow(a,p,N):
    r=[F(1)]+[F(0)]*N
    for _ in range(p): r=smul(r,a,N)
    return r
def sqrt1me2(N):
    # sqrt(1-e^2) series
    r=[F(0)]*(N+1)
    c=F(1); k=0
    while 2*k<=N:
        r[2*k]=c
        c = c*(F(1,2)-k)/(k+1)*(-1); k+=1
    return r
def sinv(a,N):
    # 1/a, a[0]!=0
    r=[F(0)]*(N+1); r[0]=1/a[0]
    for n in range(1,N+1):
        s=sum(a[k]*r[n-k] for k in range(1,n+1))
        r[n]=-s/a[0]
    return r
def beta_series(N):
    e=[F(0),F(1)]+[F(0)]*(N-1)
    den=sadd([F(1)]+[F(0)]*N, sqrt1me2(N))
    return smul(e,sinv(den,N),N)
def gen_binom(a,j):
    # binomial(a, j) for integer a (possibly negative)
    r=F(1)
    for i in range(j): r*=F(a-i,i+1)
    return r
def bessel_series(s,k,N):
    # J_s(k e) as series in e
    r=[F(0)]*(N+1)
    sgn=1
    if s<0: s=-s; sgn=(-1)**s
    m=0
    while 2*m+s<=N:
        r[2*m+s]=F((-1)**m, factorial(m)*factorial(m+s))*(F(k,2)**(2*m+s))*sgn
        m+=1
    return r
def hansen(n,m,k,N):
    beta=beta_series(N)
    bp=[[F(1)]+[F(0)]*N]
    for i in range(N): bp.append(smul(bp[-1],beta,N))
    A=n+1-m; B=n+1+m
    total=[F(0)]*(N+1)
    # (1-beta z)^A = sum_i C(A,i)(-beta)^i z^i ; (1-beta/z)^B = sum_j C(B,j)(-beta)^j z^-j
    # need i - j + s = k - m  -> s = k-m-i+j
    for i in range(N+1):
        ci=gen_binom(A,i)*(-1)**i
        if ci==0: continue
        for j in range(N+1-i):
            cj=gen_binom(B,j)*(-1)**j
            if cj==0: continue
            s=k-m-i+j
            if abs(s)+i+j>N: continue
            Js=bessel_series(s,k,N)
            term=smul(bp[i+j],Js,N)
            total=sadd(total,sscale(term,ci*cj))
    # multiply by (1+beta^2)^-(n+1)
    ob=sadd([F(1)]+[F(0)]*N, bp[2] if N>=2 else [F(0)]*(N+1))
    p=-(n+1)
    if p>=0: fac=spow(ob,p,N)
    else: fac=spow(sinv(ob,N),-p,N)
    return smul(total,fac,N)
if __name__=='__main__':
    l,N=int(sys.argv[1]),int(sys.argv[2])
    for p in range(l+1):
        for q in range(-3,4):
            G=hansen(-(l+1), l-2*p, l-2*p+q, N)
            G2=smul(G,G,N)
            print(l,p,q,[str(x) for x in G2 if True][:N+1])
