import sympy as sp
w,mu,eta,A,Gm,c,s,kv,ke = sp.symbols('w mu eta A Gm c s kv ke', positive=True)
def cmul(a,b): return (a[0]*b[0]-a[1]*b[1], a[0]*b[1]+a[1]*b[0])
def cadd(a,b): return (a[0]+b[0],a[1]+b[1])
def cscale(k,a): return (k*a[0],k*a[1])
vm=kv*mu; ve=ke*eta; vt=ve/vm; mt=eta/mu; mp_=mt*w
sine=(c,-s); vp=(w*vt,-1)
den = cadd(cadd(cmul(cscale(mp_*Gm,sine),vp), cscale(mp_*A,vp)), cmul((0,-1), cadd(cscale(A,vp),(A*mp_/kv,0))))
num = cscale(eta*w*A, vp)
P = sp.together(mu**2*(den[0]**2+den[1]**2) - (num[0]**2+num[1]**2))
n,d = sp.fraction(P)
n=sp.expand(n)
print('denominator', d)
terms = sp.Poly(n, w,mu,eta,A,Gm,c,s,kv,ke).terms()
neg=[(m,co) for m,co in terms if co<0]
print('terms',len(terms),'negative',len(neg))
for m,co in neg: print(m,co)
# use c^2+s^2=1: substitute to see if negatives cancel
n2=sp.expand(n.subs(c**2,1-s**2))
terms2=sp.Poly(n2, w,mu,eta,A,Gm,c,s,kv,ke).terms(); print('after c2 subs: terms',len(terms2),'neg',[t for t in terms2 if t[1]<0])
