import sympy as sp
r,rho,G,l,mu,R = sp.symbols('r rho G l mu R', positive=True)
gam = 4*sp.pi*G*rho/3
g = gam*r
llp1=l*(l+1); lp1=l+1; lm1=l-1
# ansatz (divide out r^(l-2)): y1 = (a1 r^2 + b1) r^(l-1) etc.
a=sp.symbols('a1:7'); b=sp.symbols('b1:7')
P=sp.Function('P')(r)   # P = r^l ; r P' = l P
y1=(a[0]*r + b[0]/r)*P; y3=(a[2]*r + b[2]/r)*P
c2=sp.symbols("c2")
y2=(a[1] + b[1]/r**2 + c2*r**2)*P; y4=(a[3] + b[3]/r**2)*P
y5=(a[4] + b[4]*r**2)*P; y6=(a[5]/r + b[5]*r)*P
y=[y1,y2,y3,y4,y5,y6]
ri=1/r; gt=4*sp.pi*G*rho; dg=rho*g; two=2*mu*ri; y13=2*y1-llp1*y3
rhs=[ y13*-1*ri,
      ri*(y1*(12*mu*ri-4*dg)+y3*llp1*(dg-6*mu*ri)+y4*llp1+y5*rho*lp1+y6*-rho*r),
      -y1*ri+y3*ri+y4/mu,
      ri*(y1*(dg-3*two)+y2*-1+y3*(two*(2*llp1-1))+y4*-3+y5*-rho),
      y1*gt-y5*lp1*ri+y6,
      ri*(y1*gt*lm1+y6*lm1+y13*gt)]
eqs=[]
for i in range(6):
    d=sp.diff(y[i],r).subs(sp.Derivative(P,r), l*P/r)
    e=sp.expand(sp.simplify((d-rhs[i])/P)*r**3)
    eqs += sp.Poly(e, r).coeffs()
sol=sp.solve(eqs, list(a)+list(b)+[c2], dict=True)
print('solution families:',len(sol)); s=sol[0]; free=[v for v in list(a)+list(b)+[c2] if v not in s]; print('free params',free)
Y=[sp.simplify(yy.subs(s)) for yy in y]
# boundary conditions at r=R
bc=[Y[1].subs(r,R), Y[3].subs(r,R), Y[5].subs(r,R)-(2*l+1)/R*1]
Pv=sp.symbols('Pv', positive=True)
bc=[sp.simplify(e.subs(P.subs(r,R),Pv)) for e in bc]
csol=sp.solve(bc, free, dict=True)[0]
k = sp.simplify((Y[4].subs(r,R).subs(P.subs(r,R),Pv)).subs(csol) - 1)
gR = gam*R
ml = (2*l**2+4*l+3)*mu/(l*rho*gR*R)
kcf = sp.Rational(3,2)/(l-1)/(1+ml)
print('k - closed form =', sp.simplify(k-kcf))
h = sp.simplify((Y[0].subs(r,R).subs(P.subs(r,R),Pv)).subs(csol)*gR); print('h - (2l+1)k/3 =', sp.simplify(h-(2*l+1)*kcf/3))
ll = sp.simplify((Y[2].subs(r,R).subs(P.subs(r,R),Pv)).subs(csol)*gR); print('l - k/l =', sp.simplify(ll-kcf/l))
