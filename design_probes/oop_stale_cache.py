import numpy as np, TidalPy
from TidalPy.structures import build_world, build_from_world
from TidalPy.structures.orbit import PhysicsOrbit
star = build_world('55cnc'); world = build_world('earth_simple')
cfg = {'force_spin_sync': True,'type':'simple_tidal','mass':5.972e24,'slices':100,
 "tides":{"model":"global_approx","fixed_q":125.0,"use_ctl":False,'eccentricity_truncation_lvl':2,'max_tidal_order_l':2,'obliquity_tides_on':False}}
def fresh(period,e):
    w = build_from_world(world, new_config=cfg); o = PhysicsOrbit(star, tidal_host=star, tidal_bodies=w)
    o.set_state(w, orbital_period=period, eccentricity=e); return w,o
w,o = fresh(50.,0.2); print('fresh(50,0.2)', w.tidal_heating_global, w.dUdM)
w2,o2 = fresh(50.,0.1); print('fresh(50,0.1)', w2.tidal_heating_global)
o2.set_eccentricity(w2, 0.2); print('history e:0.1->0.2', w2.tidal_heating_global, w2.dUdM)
w3,o3 = fresh(30.,0.2); o3.set_orbital_period(w3, 50.); print('history P:30->50', w3.tidal_heating_global)
w4,o4 = fresh(50.,0.1); w4.set_state(eccentricity=0.2); print('world.set_state e', w4.tidal_heating_global)
