import sympy as sp
r,rho,g,G,l = sp.symbols('r rho g G l', positive=True)
mur,mui,Kr,Ki = sp.symbols('mur mui Kr Ki', real=True)
mu = mur+sp.I*mui; K = Kr+sp.I*Ki
yr = sp.symbols('a1:7', real=True); yi = sp.symbols('b1:7', real=True)
y = [yr[k]+sp.I*yi[k] for k in range(6)]
y1,y2,y3,y4,y5,y6 = y
lam = K - sp.Rational(2,3)*mu
llp1=l*(l+1); lp1=l+1; lm1=l-1
grav_term = 4*sp.pi*G*rho
y13 = 2*y1-llp1*y3
dy1 = (1/(lam+2*mu))*(y13*(-lam)/r + y2)
dy2 = (1/r)*(y1*(-2*rho*g) + y2*(-2) + y4*llp1 + y5*rho*lp1 + y6*(-rho*r) + dy1*2*lam + y13*(2*(lam+mu)/r - rho*g))
dy3 = -y1/r + y3/r + y4/mu
dy4 = (1/r)*(y1*(rho*g+2*mu/r) + y3*(-2*mu/r) + y4*(-3) + y5*(-rho) + dy1*(-lam) + y13*(-(lam+2*mu))/r)
dy5 = y1*grav_term - y5*lp1/r + y6
dy6 = (1/r)*(y1*grav_term*lm1 + y6*lm1 + y13*grav_term)
dy=[dy1,dy2,dy3,dy4,dy5,dy6]
c = sp.conjugate
# candidate flux
F = r**2*( c(y1)*y2 + llp1*c(y3)*y4 ) + (r**2/(4*sp.pi*G))*c(y5)*y6
def ddr(expr):
    # total derivative wrt r using ODE; conj(y)' = conj(dy)
    res = sp.diff(expr, r)
    for k in range(6):
        res += sp.diff(expr, yr[k])*sp.re(dy[k]) + sp.diff(expr, yi[k])*sp.im(dy[k])
    return res
# treat g as function of r? dg/dr = 4 pi G rho - 2 g / r ; rho const locally (F doesn't contain g or rho)
dF = ddr(sp.expand(F))
imdF = sp.simplify(sp.im(sp.expand(dF)))
# code's H_mu, H_K with exact dy1
dy1c = c(dy1)
Hmu = sp.Rational(4,3)*r**2/sp.Abs(K+sp.Rational(4,3)*mu)**2*sp.Abs(y2-(K-sp.Rational(2,3)*mu)/r*y13)**2 \
      + (-sp.Rational(4,3)*r*sp.re(dy1c*y13) + sp.Rational(1,3)*sp.Abs(y13)**2) \
      + (llp1*r**2*sp.Abs(y4)**2/sp.Abs(mu)**2 + l*(l**2-1)*(l+2)*sp.Abs(y3)**2)
HK = r**2/sp.Abs(K+sp.Rational(4,3)*mu)**2*sp.Abs(y2-(K-sp.Rational(2,3)*mu)/r*y13)**2 + 2*r*sp.re(dy1c*y13) + sp.Abs(y13)**2
target = mui*Hmu + Ki*HK
import random
subs = {s: sp.Rational(random.randint(1,9),random.randint(1,9)) for s in list(yr)+list(yi)+[r,rho,g,G,mur,mui,Kr,Ki]}
subs[l]=2
v1 = sp.N(imdF.subs(subs)); v2 = sp.N(target.subs(subs))
print(v1, v2, v1/v2)
