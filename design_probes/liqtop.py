import numpy as np
from TidalPy.RadialSolver.solver import radial_solver
G=6.6743e-11
N=60; R=6e6
r=np.linspace(0.1,R,N); rho=np.where(r<=0.5*R,5000.,1000.)
M=np.cumsum(4*np.pi*r**2*rho*np.gradient(r)); g=G*M/r**2
K=np.full(N,1e11); mu=np.where(r<=0.5*R,5e10+1e8j,0j)
for static in (True,False):
    try:
        s=radial_solver(r.copy(),rho.copy(),g.copy(),K.copy(),mu.copy(),1e-4,float(M[-1]/(4/3*np.pi*R**3)),('solid','liquid'),(False,static),(False,False),(0.5*R,R))
        print('liquid top static',static,'->',s.success,s.message[:60], None if not s.success else s.k)
    except BaseException as ex:
        print('EXC',type(ex).__name__,str(ex)[:80])
