import sympy as sp
from math import comb, factorial
s,c,I=sp.symbols('s c I')
def kaula_F(l,m,p):
    k=(l-m)//2; tot=0
    sinI=2*s*c; cosI=c**2-s**2
    for t in range(0,min(p,k)+1):
        c1=sp.Rational(factorial(2*l-2*t),factorial(t)*factorial(l-t)*factorial(l-m-2*t)*2**(2*l-2*t))
        inner=0
        for ss in range(0,m+1):
            acc=0
            for cc in range(0,l-m-2*t+ss+1):
                a=p-t-cc
                if a<0 or a>m-ss: continue
                acc+=comb(l-m-2*t+ss,cc)*comb(m-ss,a)*(-1)**(cc-k)
            inner+=comb(m,ss)*cosI**ss*acc
        tot+=c1*sinI**(l-m-2*t)*inner
    return sp.expand(tot)
F=kaula_F(6,3,3)
F=sp.expand(F.subs(c**2,1-s**2))
print(sp.factor(F))
s2=sp.symbols('s2')
code = sp.Rational('18759726.5625')*(s**4-s**2+sp.Rational(2,11))**2*s**4*(4*s*c*(c**2-s**2))**2*c
print('code/spec^2 =', sp.simplify(sp.factor(sp.expand(code.subs(c**2,1-s**2)))/sp.factor(sp.expand((F**2)))))
