import ast, mpmath as mp
from math import comb, factorial
mp.mp.dps=40
def kaula_F(l,m,p,I):
    k=(l-m)//2
    tot=mp.mpf(0)
    for t in range(0,min(p,k)+1):
        c1=mp.mpf(factorial(2*l-2*t))/(factorial(t)*factorial(l-t)*factorial(l-m-2*t)*2**(2*l-2*t))
        inner=mp.mpf(0)
        for s in range(0,m+1):
            cs=comb(m,s)*mp.cos(I)**s
            ss=mp.mpf(0)
            for c in range(0, l-m-2*t+s+1):
                a=p-t-c
                if a<0 or a>m-s: continue
                ss+=comb(l-m-2*t+s,c)*comb(m-s,a)*(-1)**(c-k)
            inner+=cs*ss
        tot+=c1*mp.sin(I)**(l-m-2*t)*inner
    return tot
class NP:
    sin=staticmethod(mp.sin); cos=staticmethod(mp.cos)
    @staticmethod
    def ones_like(x): return mp.mpf(1)
def load(l):
    src=open(f'/repo/TidalPy/tides/inclination_funcs/orderl{l}.py').read()
    tree=ast.parse(src)
    fns={}
    for fn in tree.body:
        if isinstance(fn,ast.FunctionDef):
            fn.decorator_list=[]; fn.returns=None
            for a in fn.args.args: a.annotation=None
            # convert float constants to mpf via source rewrite: wrap by evaluating with mp? simple: leave floats (double precision literals)
            mod=ast.Module(body=[fn],type_ignores=[]); ast.fix_missing_locations(mod)
            ns={'np':NP}
            exec(compile(mod,'x','exec'),ns); fns[fn.name]=ns[fn.name]
    return fns
worst=0
for l in range(2,8):
    f=load(l)
    for I in (mp.mpf('0.3'),mp.mpf('1.1'),mp.mpf('2.5')):
        on=f['calc_inclination'](I)
        keys=set(on.keys())
        for m in range(l+1):
            for p in range(l+1):
                spec=kaula_F(l,m,p,I)**2
                if (m,p) not in on:
                    print('MISSING',l,m,p,spec); continue
                d=abs(on[(m,p)]-spec)/max(abs(spec),mp.mpf(1e-30)) if spec!=0 else abs(on[(m,p)])
                if d>1e-12: print('BAD on',l,m,p,float(I),on[(m,p)],spec)
                worst=max(worst,d)
    off=f['calc_inclination_off'](mp.mpf(0))
    for m in range(l+1):
        for p in range(l+1):
            spec=kaula_F(l,m,p,mp.mpf(0))**2
            if (m,p) in off:
                if abs(off[(m,p)]-spec)>1e-12*max(1,abs(spec)): print('BAD off',l,m,p,off[(m,p)],spec)
            elif spec!=0: print('MISSING off',l,m,p,spec)
print('worst',worst)
