import numpy as np, inspect, warnings
warnings.filterwarnings('ignore')
from TidalPy.tides import potential as P
def call(f, use_static=False, e=0.13, obl=0.35, n=2.1e-5, o=3.7e-5):
    sig=inspect.signature(f.py_func)
    vals=dict(radius=1.0e6, longitude=0.7, colatitude=1.1, time=1234.5, orbital_frequency=n, rotation_frequency=o,
              eccentricity=e, obliquity=obl, host_mass=1.0e27, semi_major_axis=4.0e8, use_static=use_static)
    return f(*[vals[k] for k in sig.parameters])
def tot(res): return np.array([sum(float(v[i]) for v in res[2].values()) for i in range(6)])
pairs=[('tidal_potential_nsr_modes','tidal_potential_nsr'),('tidal_potential_obliquity_nsr_modes','tidal_potential_obliquity_nsr'),('tidal_potential_gen_obliquity_nsr_modes','tidal_potential_gen_obliquity_nsr')]
for a,b in pairs:
    for st in (False,True):
        A=tot(call(getattr(P,a),st)); B=tot(call(getattr(P,b),st))
        print(a,'vs',b,'static',st,'maxrel',np.max(np.abs(A-B))/np.max(np.abs(B)))
# limits: zero obliquity
for st in (False,True):
    A=tot(call(P.tidal_potential_obliquity_nsr,st,obl=0.0)); B=tot(call(P.tidal_potential_nsr,st))
    C=tot(call(P.tidal_potential_gen_obliquity_nsr,st,obl=0.0))
    print('obl=0: med vs none',np.max(np.abs(A-B))/np.max(np.abs(B)),' gen vs none',np.max(np.abs(C-B))/np.max(np.abs(B)))
# small obliquity second order
for ob in (1e-2,1e-3):
    A=tot(call(P.tidal_potential_obliquity_nsr,False,obl=ob)); C=tot(call(P.tidal_potential_gen_obliquity_nsr,False,obl=ob))
    print('obl',ob,'med vs gen',np.max(np.abs(A-C))/np.max(np.abs(C)))
# synchronous small e: simple vs nsr with o=n
for e in (1e-2,1e-3):
    S=tot(call(P.tidal_potential_simple,False,e=e)); N=tot(call(P.tidal_potential_nsr,False,e=e,o=2.1e-5))
    print('e',e,'simple vs nsr(sync)',np.max(np.abs(S-N))/np.max(np.abs(N)), S[:2],N[:2])
A=tot(call(P.tidal_potential_gen_obliquity_low_e_nsr_modes,False,e=1e-3)); B=tot(call(P.tidal_potential_gen_obliquity_nsr_modes,False,e=1e-3))
print('low_e vs med_e gen modes at e=1e-3',np.max(np.abs(A-B))/np.max(np.abs(B)))
print('---- low_e vs med_e modes by name at e=0 and e=1e-3')
for e in (0.0,1e-3):
    ra=call(P.tidal_potential_gen_obliquity_low_e_nsr_modes,False,e=e); rb=call(P.tidal_potential_gen_obliquity_nsr_modes,False,e=e)
    names=sorted(set(ra[2])|set(rb[2]))
    for k in names:
        a=float(ra[2][k][0]) if k in ra[2] else None; b=float(rb[2][k][0]) if k in rb[2] else None
        if a is None or b is None or abs(a-b)>1e-9*max(abs(a),abs(b),1e-300): print(e,k,a,b)
