import z3, time
R=z3.Real
w,mu,eta,A,Gm,c,s,kv,ke = [R(n) for n in 'w mu eta A Gm c s kv ke'.split()]
def cmul(a,b): return (a[0]*b[0]-a[1]*b[1], a[0]*b[1]+a[1]*b[0])
def cadd(a,b): return (a[0]+b[0],a[1]+b[1])
def cscale(k,a): return (k*a[0],k*a[1])
hyp=[w>0,mu>0,eta>0,A>0,Gm>0,c>0,s>0,c*c+s*s==1,kv>0,ke>0]
# Sundberg-Cooper as coded
vm=kv*mu; ve=ke*eta; vt=ve/vm; mt=eta/mu; mp_=mt*w
sine=(c,-s); vp=(w*vt,-1)
den = cadd(cadd(cmul(cscale(mp_*Gm,sine),vp), cscale(mp_*A,vp)), cmul((0,-1), cadd(cscale(A,vp),(A*mp_/kv,0))))
num = cscale(eta*w*A, vp)
# result = num/den ; Re = (num.re*den.re+num.im*den.im)/|den|^2 ; Im = (num.im*den.re - num.re*den.im)/|den|^2
re_num = num[0]*den[0]+num[1]*den[1]
im_num = num[1]*den[0]-num[0]*den[1]
d2 = den[0]*den[0]+den[1]*den[1]
for name,goal in (('Re>=0',re_num>=0),('Im>=0',im_num>=0),('den!=0',d2>0),('|G|<=mu', num[0]*num[0]+num[1]*num[1] <= mu*mu*d2)):
    sol=z3.Solver(); sol.set('timeout',60000); sol.add(*hyp); sol.add(z3.Not(goal))
    t=time.time(); r=sol.check(); print('sundberg',name,r,round(time.time()-t,2))
# compliance identity: J = 1/mu - i/(eta w) + (1/mu) Gm (c - i s)/A' where A=(w tau zeta)^alpha ; + voigt: 1/(vm + i w ve) ...
# J_voigt element = 1/(vm) * 1/(1 + i w vt) -> compliance of Kelvin-Voigt element: 1/(vm + i w ve)
Jm=(1/mu, -1/(eta*w)); Ja=cscale(Gm/(mu*A),(c,-s))
dv = vm*vm + w*w*ve*ve
Jv=(vm/dv, -w*ve/dv)
J=cadd(cadd(Jm,Ja),Jv)
# G*J == 1  <=> num*J == den
lhs=cmul(num,J)
for name,goal in (('GJ=1 re', lhs[0]==den[0]),('GJ=1 im', lhs[1]==den[1])):
    sol=z3.Solver(); sol.set('timeout',60000); sol.add(*hyp); sol.add(z3.Not(goal))
    t=time.time(); r=sol.check(); print('sundberg',name,r,round(time.time()-t,2))
