"""Prototype: mechanical .pyx -> Python-subset translation (no Cython available)."""
import re, ast, sys, io, tokenize

CTYPES = r'(?:unsigned\s+|const\s+)*(?:double\s+complex|double|float|int|long|size_t|ssize_t|Py_ssize_t|bint|char|str|tuple|bool|object|RadialSolverBase|RadialSolverSolution|\w+_t)\b'

def logical_lines(src):
    # join physical lines into logical lines using tokenize (handles brackets, backslashes, strings)
    out=[]; buf=[]; 
    toks = tokenize.generate_tokens(io.StringIO(src).readline)
    # simpler: use bracket depth + backslash continuation by hand
    return None

def strip_casts(s):
    # <type> expr  -> (expr)   ; only removes the cast token
    return re.sub(r'<\s*(?:unsigned\s+|const\s+)*[A-Za-z_][\w ]*?\**\s*>', '', s)

def translate(src):
    lines = src.split('\n')
    out=[]; dropped=[]
    i=0
    # first join continuation lines: track bracket depth
    joined=[]; cur=''; depth=0; start=0
    for ln_no,ln in enumerate(lines,1):
        code = ln
        if not cur: start=ln_no
        cur = (cur + '\n' + code) if cur else code
        # count brackets outside strings/comments (approx)
        stripped = re.sub(r'#.*$','',re.sub(r'(\'[^\']*\'|"[^"]*")','""',code))
        depth += sum(stripped.count(c) for c in '([{') - sum(stripped.count(c) for c in ')]}')
        if depth<=0 and not stripped.rstrip().endswith('\\'):
            joined.append((start,cur)); cur=''; depth=0
    if cur: joined.append((start,cur))
    in_doc=False
    for start,stmt in joined:
        m = re.match(r'^(\s*)(.*)$', stmt, re.S)
        ind, body = m.group(1), m.group(2)
        flat = body
        # function headers
        if re.match(r'(cdef|cpdef)\s+(inline\s+)?[\w\s\*\(\),]*?\b(\w+)\s*\(', flat) and flat.rstrip().endswith(':') and 'class' not in flat.split('(')[0]:
            name = re.match(r'(?:cdef|cpdef)\s+(?:inline\s+)?.*?\b(\w+)\s*\(', flat, re.S).group(1)
            args = flat[flat.index('(')+1: flat.rindex(')')]
            # strip types from args
            parts=[]; d=0; curp=''
            for ch in args:
                if ch in '([': d+=1
                if ch in ')]': d-=1
                if ch==',' and d==0: parts.append(curp); curp=''
                else: curp+=ch
            if curp.strip(): parts.append(curp)
            newparts=[]
            for p in parts:
                p=re.sub(r'#.*','',p).strip()
                if not p: continue
                default=None
                if '=' in p: p,default=p.split('=',1)
                pname = re.findall(r'[A-Za-z_]\w*', p)[-1]
                newparts.append(pname + ('='+default.strip() if default else ''))
            out.append(f'{ind}def {name}({", ".join(newparts)}):'); dropped.append((start,'signature types'))
            continue
        if re.match(r'def\s+\w+\s*\(', flat) and flat.rstrip().endswith(':'):
            name = re.match(r'def\s+(\w+)', flat).group(1)
            args = flat[flat.index('(')+1: flat.rindex(')')]
            parts=[]; d=0; curp=''
            for ch in args:
                if ch in '([': d+=1
                if ch in ')]': d-=1
                if ch==',' and d==0: parts.append(curp); curp=''
                else: curp+=ch
            if curp.strip(): parts.append(curp)
            newparts=[]
            for p in parts:
                p=re.sub(r'#.*','',p).strip()
                if not p: continue
                default=None
                if '=' in p: p,default=p.split('=',1)
                star = '**' if p.startswith('**') else ('*' if p.startswith('*') else '')
                pname = re.findall(r'[A-Za-z_]\w*', p)[-1]
                newparts.append(star+pname + ('='+default.strip() if default else ''))
            out.append(f'{ind}def {name}({", ".join(newparts)}):'); continue
        if re.match(r'cdef\s+class\s', flat):
            out.append(ind + flat.replace('cdef class','class',1)); continue
        if re.match(r'(from\s+\S+\s+)?cimport\s', flat) or re.match(r'from\s+\S+\s+cimport', flat):
            out.append(ind+'pass  # cimport dropped'); dropped.append((start,'cimport')); continue
        if flat.startswith('cdef '):
            rest = flat[5:]
            # cdef type a = expr | cdef type a, b | cdef type[N] a | cdef type* p = &x[0]
            mm = re.match(r'(?:'+CTYPES+r')\s*(\[[^\]]*\])*\s*\**\s*(.*)$', rest, re.S)
            if mm:
                decl = mm.group(2) if mm.lastindex and mm.lastindex>=2 else ''
                decl = re.sub(r'^(\[[^\]]*\])+','',decl).strip()
                decl = re.sub(r'^\**\s*','',decl)
                if '=' in decl and not re.match(r'^[\w\s,\*\[\]]+$', decl):
                    out.append(ind + strip_casts(decl)); continue
                else:
                    arr = re.findall(r'\[(\d+)\]', rest)
                    out.append(ind + f'pass  # decl: {rest.strip()[:60]}'); dropped.append((start,'decl')); continue
            out.append(ind+'pass  # cdef? '+rest[:60]); dropped.append((start,'cdef-unknown')); continue
        out.append(ind + strip_casts(flat))
    return '\n'.join(out), dropped

if __name__=='__main__':
    for f in sys.argv[1:]:
        src=open(f).read()
        py,dropped=translate(src)
        try:
            ast.parse(py); print('OK  ',f, 'dropped',len(dropped))
        except SyntaxError as e:
            print('FAIL',f,e.lineno,e.msg); 
            l=py.split('\n'); print('\n'.join(l[max(0,e.lineno-3):e.lineno+1]))
