import numpy as np
from TidalPy.RadialSolver.solver import radial_solver
e=np.zeros(0); ec=np.zeros(0,dtype=np.complex128)
try:
    s=radial_solver(e,e.copy(),e.copy(),e.copy(),ec,1e-5,3000.,(),(),(),())
    print('returned',s.success,s.message)
except BaseException as ex:
    print('EXC',type(ex).__name__,ex)
