import numpy as np, inspect, warnings
warnings.filterwarnings('ignore')
import TidalPy
from TidalPy.tides import potential as P
funcs = {n:getattr(P,n) for n in dir(P) if n.startswith('tidal_potential_')}
rng=np.random.default_rng(1)
def call(f, lon, colat, t, use_static=False):
    sig=inspect.signature(f.py_func if hasattr(f,'py_func') else f)
    vals=dict(radius=1.0e6, longitude=lon, colatitude=colat, time=t, orbital_frequency=2.1e-5, rotation_frequency=3.7e-5,
              eccentricity=0.13, obliquity=0.35, host_mass=1.0e27, semi_major_axis=4.0e8, use_static=use_static)
    args=[vals[k] for k in sig.parameters]
    g=f
    return g(*args)
h=1e-6
for name,f in funcs.items():
    for use_static in (False,True):
        try:
            lon,colat,t=0.7,1.1,1234.5
            base=call(f,lon,colat,t,use_static)
        except TypeError as e:
            print(name,'call error',e); break
        freqs,modes,pots=base
        pl=call(f,lon+h,colat,t,use_static)[2]; ml=call(f,lon-h,colat,t,use_static)[2]
        pc=call(f,lon,colat+h,t,use_static)[2]; mc=call(f,lon,colat-h,t,use_static)[2]
        bad=[]
        scale=max(abs(np.asarray(v[0])).max() for v in pots.values())+1e-300
        for k,v in pots.items():
            U,Ut,Up,Utt,Upp,Utp=[float(np.asarray(x)) for x in v]
            nUt=(float(pc[k][0])-float(mc[k][0]))/(2*h); nUp=(float(pl[k][0])-float(ml[k][0]))/(2*h)
            nUtt=(float(pc[k][1])-float(mc[k][1]))/(2*h); nUpp=(float(pl[k][2])-float(ml[k][2]))/(2*h)
            nUtp=(float(pl[k][1])-float(ml[k][1]))/(2*h)
            lap=Utt+Ut/np.tan(colat)+Upp/np.sin(colat)**2+6*U
            for nm,a,b in (('Ut',Ut,nUt),('Up',Up,nUp),('Utt',Utt,nUtt),('Upp',Upp,nUpp),('Utp',Utp,nUtp),('lap',lap,0.0)):
                if abs(a-b)>1e-6*scale: bad.append((k,nm,a,b))
        print(name,'static' if use_static else 'nostatic','modes',len(pots),'bad',len(bad))
        for b in bad[:6]: print('   ',b)
