import sys, sympy as sp, itertools
import os; sys.path.insert(0, os.path.dirname(os.path.abspath(__file__)))
from pyx2py import translate
def load(path, cut):
    src=open(path).read()
    src=src.split(cut)[0]
    py,_=translate(src)
    return py
ns={'pi':sp.pi,'NAN':sp.Symbol('NANV'),'cf_build_dblcmplx':lambda a,b: a+sp.I*b}
exec(compile(load('/repo/TidalPy/RadialSolver/interfaces/interfaces.pyx','def solve_upper_y_at_interface'),'interfaces','exec'),ns)
ns2=dict(ns)
exec(compile(load('/repo/TidalPy/RadialSolver/interfaces/reversed.pyx','def top_to_bottom'),'reversed','exec'),ns2)
up=ns['cf_solve_upper_y_at_interface']; down=ns2['cf_top_to_bottom_interface_bc']
def nsols(t,st): return 3 if t==0 else (1 if st else 2)
G,gU,gA,rU,rA=sp.symbols('G gU gA rhoU rhoA',positive=True)
def phys(vec,t,st):
    # returns dict name->expr for defined quantities
    if t==0: return dict(y1=vec[0],y2=vec[1],y3=vec[2],y4=vec[3],y5=vec[4],y6=vec[5])
    if st: return dict(y5=vec[0],y7=vec[1])
    return dict(y1=vec[0],y2=vec[1],y5=vec[2],y6=vec[3])
bad=[]; n=0
for lt,ls,li,ut,us,ui in itertools.product((0,1),(True,False),(False,True),(0,1),(True,False),(False,True)):
    nl,nu=nsols(lt,ls),nsols(ut,us)
    Y=[sp.Symbol(f'Y{s}_{i}') if s<nl else sp.Symbol('UNSET') for s in range(3) for i in range(6)]
    U=[None]*18
    gi=sp.Rational(1,2)*(gA+gU)
    # solver.pyx logic for static_liquid_density (this layer = upper; layer below = lower)
    if ut==0 and lt==0: rl=sp.Symbol('NANV')
    elif ut!=0 and lt==0: rl=rA          # density_lower of this (upper) layer
    elif ut==0 and lt!=0: rl=rU          # last_layer_upper_density
    else:
        if us and ls: rl=rA
        elif us and not ls: rl=rA
        elif (not us) and ls: rl=rU
        else: rl=sp.Symbol('NANV')
    up(Y,U,nl,nu,6,lt,ls,li,ut,us,ui,gi,rl,G)
    C=[sp.Symbol(f'C{j}') if j<nu else sp.Symbol('NANV') for j in range(3)]
    const=[sp.Symbol('UNSETC')]*3
    down(const,C,Y,gU,gA,rU,rA,lt,ut,ls,us,li,ui,nl,6)
    low=[sp.expand(sum(const[j]*Y[j*6+i] for j in range(nl))) for i in range(6)]
    upp=[sp.expand(sum(C[j]*U[j*6+i] for j in range(nu))) for i in range(6)]
    pl,pu=phys(low,lt,ls),phys(upp,ut,us)
    checks=[]
    for q in ('y1','y2','y5','y6'):
        if q in pl and q in pu: checks.append((q+' continuous', pl[q]-pu[q]))
    if lt==0 and ut!=0: checks.append(('y4=0 solid side (below)', pl['y4']))
    if lt!=0 and ut==0: checks.append(('y4=0 solid side (above)', pu['y4']))
    if 'y7' in pu and 'y6' in pl: checks.append(('y7 = y6+(4piG/g)y2', pu['y7']-(pl['y6']+4*sp.pi*G/gi*pl['y2'])))
    if 'y7' in pl and 'y6' in pu: checks.append(('y7 = y6+(4piG/g)y2 (up)', pl['y7']-(pu['y6']+4*sp.pi*G/gi*pu['y2'])))
    if 'y7' in pl and 'y7' in pu: checks.append(('y7 continuous', pl['y7']-pu['y7']))
    for name,e in checks:
        n+=1
        z=sp.simplify(e)
        if z!=0 or e.has(sp.Symbol('NANV')) or e.has(sp.Symbol('UNSET')) or e.has(sp.Symbol('UNSETC')):
            bad.append(((lt,ls,li,ut,us,ui),name,z))
print('checks',n,'bad',len(bad))
seen=set()
for combo,name,z in bad:
    key=(combo[0],combo[1],combo[3],combo[4],name)
    if key in seen: continue
    seen.add(key)
    print('lower(type,static)=',combo[0],combo[1],' upper=',combo[3],combo[4],'|',name,'| residual:',str(z)[:200])
